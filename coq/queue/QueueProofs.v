(** Proofs about the task-queue model (C09). *)
From KV Require Import base.Tac queue.Queue.
Open Scope N_scope.

(** ** Basic facts about scopes *)
Lemma key_eqb_eq a b : key_eqb a b = true <-> a = b.
Proof.
  destruct a as [a1 a2], b as [b1 b2]; unfold key_eqb; simpl.
  rewrite andb_true_iff, !N.eqb_eq. split; [intros [-> ->]; reflexivity|intros H; inv H; auto].
Qed.

Lemma key_eqb_refl a : key_eqb a a = true.
Proof. apply key_eqb_eq; reflexivity. Qed.

Lemma in_del s k e : In e (del s k) <-> In e s /\ ekey e <> k.
Proof.
  unfold del. rewrite filter_In, negb_true_iff. split; intros [H1 H2]; split; auto.
  - intros E. apply key_eqb_eq in E. congruence.
  - destruct (key_eqb (ekey e) k) eqn:E; auto. apply key_eqb_eq in E. contradiction.
Qed.

Lemma in_put s e x : In x (put s e) <-> x = e \/ (In x s /\ ekey x <> ekey e).
Proof. unfold put; simpl. rewrite in_del. intuition. Qed.

Lemma in_named s n e : In e (named s n) <-> In e s /\ e_name e = n.
Proof. unfold named. rewrite filter_In, N.eqb_eq. tauto. Qed.

Lemma has_true s k : has s k = true <-> exists e, In e s /\ ekey e = k.
Proof.
  unfold has. rewrite existsb_exists. split; intros [e [H1 H2]]; exists e; split; auto;
  apply key_eqb_eq; auto.
Qed.

Lemma get_some s k e : get s k = Some e -> In e s /\ ekey e = k.
Proof. unfold get. intros H. apply find_some in H. destruct H as [H1 H2]. apply key_eqb_eq in H2. auto. Qed.

Lemma get_none s k : get s k = None -> forall e, In e s -> ekey e <> k.
Proof.
  unfold get. intros H e He E. eapply find_none in H; eauto. rewrite E, key_eqb_refl in H. discriminate.
Qed.

Lemma pick_named_some s n e : In (Some e) (pick_named s n) <-> In e s /\ e_name e = n.
Proof.
  unfold pick_named. destruct (named s n) as [|a l] eqn:E.
  - simpl. split; [intros [H|[]]; discriminate|]. intros H. apply in_named in H. rewrite E in H. destruct H.
  - rewrite <- in_named, E. rewrite in_map_iff. split.
    + intros [x [Hx Hin]]. inv Hx. auto.
    + intros H. exists e. auto.
Qed.

Lemma pick_named_none s n : In None (pick_named s n) <-> forall e, In e s -> e_name e <> n.
Proof.
  unfold pick_named. destruct (named s n) as [|a l] eqn:E.
  - simpl. split; [|auto]. intros _ e He Hn. assert (In e (named s n)) by (apply in_named; auto).
    rewrite E in H. destruct H.
  - split.
    + intros H. apply in_map_iff in H. destruct H as [x [Hx _]]. discriminate.
    + intros H. exfalso. assert (In a (named s n)) by (rewrite E; left; auto).
      apply in_named in H0. destruct H0. eapply H; eauto.
Qed.

Lemma pick_named_nonempty s n : pick_named s n <> [].
Proof. unfold pick_named. destruct (named s n); simpl; discriminate. Qed.

(** ** min_ts *)
Lemma min_ts_acc l : forall acc,
  match fold_left (fun acc e => match acc with None => Some (e_ts e) | Some m => Some (N.min m (e_ts e)) end) l acc with
  | None => acc = None /\ l = []
  | Some m => (forall e, In e l -> m <= e_ts e) /\ (match acc with Some a => m <= a | None => True end)
              /\ ((exists e, In e l /\ e_ts e = m) \/ acc = Some m)
  end.
Proof.
  induction l as [|x l IH]; intros acc; simpl.
  - destruct acc; [repeat split; auto; try lia; intros e []|auto].
  - specialize (IH (match acc with None => Some (e_ts x) | Some m => Some (N.min m (e_ts x)) end)).
    destruct (fold_left _ l _) as [m|] eqn:E.
    + destruct IH as [H1 [H2 H3]]. repeat split.
      * intros e [->|He]; [|auto]. destruct acc; lia.
      * destruct acc; auto. lia.
      * destruct H3 as [[e [He1 He2]]|H3]; [left; exists e; auto|].
        destruct acc as [a|]; inv H3.
        -- destruct (N.min_spec a (e_ts x)) as [[_ Hm]|[_ Hm]]; rewrite Hm; [right; auto|left; exists x; auto].
        -- left; exists x; auto.
    + destruct IH as [H _]. destruct acc; discriminate.
Qed.

Lemma min_ts_some l m : min_ts l = Some m ->
  (forall e, In e l -> m <= e_ts e) /\ exists e, In e l /\ e_ts e = m.
Proof.
  unfold min_ts. intros H. pose proof (min_ts_acc l None) as P. rewrite H in P.
  destruct P as [P1 [_ [P3|P3]]]; [auto|discriminate].
Qed.

Lemma min_ts_none l : min_ts l = None -> l = [].
Proof.
  unfold min_ts. intros H. pose proof (min_ts_acc l None) as P. rewrite H in P. tauto.
Qed.

Lemma in_due now s e : In e (due now s) <-> In e s /\ e_ts e <= now.
Proof. unfold due. rewrite filter_In, N.leb_le. tauto. Qed.

(** ** Claim: earliest due first *)
Theorem claim_earliest now now2 q q' k v :
  In (q', RClaimed k v) (claim now now2 q) ->
  exists e, In e (pend q) /\ e_ts e <= now /\ e_val e = v /\ e_name e = snd k
    /\ (forall e', In e' (pend q) -> e_ts e' <= now -> e_ts e <= e_ts e')
    /\ pend q' = del (pend q) (ekey e)
    /\ run q' = put (run q) (mkE (fst k) (snd k) v)
    /\ (fst k = now \/ (has (run q) (now, e_name e) = true /\ fst k = now2)).
Proof.
  unfold claim. destruct (min_ts (due now (pend q))) as [m|] eqn:E.
  - intros H. apply in_map_iff in H. destruct H as [e [He Hin]].
    apply filter_In in Hin. destruct Hin as [Hd Hm]. apply N.eqb_eq in Hm.
    apply in_due in Hd. destruct Hd as [Hp Hn].
    apply min_ts_some in E. destruct E as [Emin _].
    unfold claim_one in He. inv He. exists e.
    repeat split; auto.
    + destruct (has (run q) (now, e_name e)); reflexivity.
    + intros e' He' Hn'. apply Emin. apply in_due. auto.
    + destruct (has (run q) (now, e_name e)); simpl; auto.
  - intros [H|[]]. inv H.
Qed.

Theorem claim_none_iff now now2 q :
  (exists q', In (q', RNone) (claim now now2 q)) <-> (forall e, In e (pend q) -> now < e_ts e).
Proof.
  unfold claim. destruct (min_ts (due now (pend q))) as [m|] eqn:E.
  - split.
    + intros [q' H]. apply in_map_iff in H. destruct H as [e [He _]]. unfold claim_one in He. inv He.
    + intros H. apply min_ts_some in E. destruct E as [_ [e [He _]]]. apply in_due in He.
      destruct He as [He1 He2]. specialize (H e He1). lia.
  - split.
    + intros _ e He. apply min_ts_none in E.
      destruct (N.ltb_spec now (e_ts e)); auto.
      assert (In e (due now (pend q))) by (apply in_due; split; auto). rewrite E in H0. destruct H0.
    + intros _. exists q. left. reflexivity.
Qed.

Theorem claim_none_unchanged now now2 q q' : In (q', RNone) (claim now now2 q) -> q' = q.
Proof.
  unfold claim. destruct (min_ts (due now (pend q))).
  - intros H. apply in_map_iff in H. destruct H as [e [He _]]. unfold claim_one in He. inv He.
  - intros [H|[]]. inv H. reflexivity.
Qed.

(** A claim never fails to hand out a due task: if something is due, every outcome is a claim. *)
Theorem claim_some_when_due now now2 q e :
  In e (pend q) -> e_ts e <= now ->
  forall q' r, In (q', r) (claim now now2 q) -> exists k v, r = RClaimed k v.
Proof.
  intros He Hn q' r. unfold claim. destruct (min_ts (due now (pend q))) as [m|] eqn:E.
  - intros H. apply in_map_iff in H. destruct H as [x [Hx _]]. unfold claim_one in Hx. inv Hx. eauto.
  - apply min_ts_none in E. assert (In e (due now (pend q))) by (apply in_due; auto). rewrite E in H. destruct H.
Qed.

Lemma claim_nonempty now now2 q : claim now now2 q <> [].
Proof.
  unfold claim. destruct (min_ts (due now (pend q))) as [m|] eqn:E; [|discriminate].
  apply min_ts_some in E. destruct E as [_ [e [He Hm]]].
  intros H. apply map_eq_nil in H.
  assert (In e (filter (fun e0 => e_ts e0 =? m) (due now (pend q)))) by (apply filter_In; split; auto; apply N.eqb_eq; auto).
  rewrite H in H0. destruct H0.
Qed.

(** ** Schedule: characterisation of the outcomes *)
Lemma in_schedule m n v t q q' :
  In q' (schedule m n v t q) <->
  exists po ro, In po (pick_named (pend q) n) /\ In ro (pick_named (run q) n) /\ q' = sched_with m n v t q po ro.
Proof.
  unfold schedule. rewrite in_flat_map. split.
  - intros [po [Hpo H]]. apply in_map_iff in H. destruct H as [ro [Hq Hro]]. exists po, ro. auto.
  - intros [po [ro [Hpo [Hro Hq]]]]. exists po. split; auto. apply in_map_iff. exists ro. auto.
Qed.

Lemma schedule_nonempty m n v t q : schedule m n v t q <> [].
Proof.
  unfold schedule. pose proof (pick_named_nonempty (pend q) n). pose proof (pick_named_nonempty (run q) n).
  destruct (pick_named (pend q) n) as [|po l]; [congruence|]. simpl.
  destruct (pick_named (run q) n) as [|ro l']; [congruence|]. simpl. discriminate.
Qed.

(** Re-scheduling keeps the earlier of the two times ("soonest"). *)
Theorem soonest_keeps_earlier m n v t q q' :
  f_min (flags m) = true -> f_if_absent (flags m) = false ->
  In q' (schedule m n v t q) ->
  exists e, In e (pend q') /\ e_name e = n /\ e_val e = v /\ e_ts e <= t /\
    ((forall x, In x (pend q) -> e_name x <> n) /\ e_ts e = t
     \/ exists old, In old (pend q) /\ e_name old = n /\ e_ts e = N.min t (e_ts old)).
Proof.
  intros Hmin Habs H. apply in_schedule in H. destruct H as [po [ro [Hpo [Hro ->]]]].
  unfold sched_with. rewrite Hmin, Habs. simpl.
  destruct po as [old|].
  - apply pick_named_some in Hpo. destruct Hpo as [Ho1 Ho2].
    exists (mkE (N.min t (e_ts old)) n v). simpl. repeat split; auto; try lia.
    right. exists old. auto.
  - exists (mkE t n v). simpl. repeat split; auto; try lia.
    left. split; auto. apply pick_named_none. auto.
Qed.

(** In the soonest modes no pending entry for [n] that was there before and is later than the
    new one survives *as the chosen one*: the entry found is always deleted. *)
Theorem schedule_adds_pending m n v t q q' :
  f_if_absent (flags m) = false ->
  In q' (schedule m n v t q) -> exists e, In e (pend q') /\ e_name e = n /\ e_val e = v.
Proof.
  intros Habs H. apply in_schedule in H. destruct H as [po [ro [_ [_ ->]]]].
  unfold sched_with. rewrite Habs. simpl. eexists. split; [left; reflexivity|]. simpl. auto.
Qed.

Theorem if_missing_spec n v t q q' :
  In q' (schedule IfMissing n v t q) ->
  (In n (names q) /\ q' = q) \/
  (~ In n (names q) /\ q' = mkQ (put (pend q) (mkE t n v)) (run q)).
Proof.
  intros H. apply in_schedule in H. destruct H as [po [ro [Hpo [Hro ->]]]].
  unfold sched_with. simpl. unfold names.
  destruct po as [p|]; simpl.
  - left. split; auto. apply pick_named_some in Hpo. destruct Hpo as [H1 H2].
    apply in_map_iff. exists p. split; auto. apply in_or_app; auto.
  - destruct ro as [r|]; simpl.
    + left. split; auto. apply pick_named_some in Hro. destruct Hro as [H1 H2].
      apply in_map_iff. exists r. split; auto. apply in_or_app; auto.
    + right. split; auto. intros H. apply in_map_iff in H. destruct H as [e [He Hin]].
      apply in_app_or in Hin. destruct Hin as [Hin|Hin].
      * rewrite pick_named_none in Hpo. eapply Hpo; eauto.
      * rewrite pick_named_none in Hro. eapply Hro; eauto.
Qed.

(** ** Nothing is silently dropped: names only move between pending and running. *)
Definition finishes (o : op) (n : N) : Prop :=
  match o with
  | OFinish k => snd k = n
  | OHandle k Done => snd k = n
  | _ => False
  end.

Lemma names_in q n : In n (names q) <-> exists e, (In e (pend q) \/ In e (run q)) /\ e_name e = n.
Proof.
  unfold names. rewrite in_map_iff. split; intros [e [H1 H2]]; exists e.
  - apply in_app_or in H2. auto.
  - split; [tauto|]. apply in_or_app. tauto.
Qed.

Lemma sched_with_keeps_names m n v t q po ro x :
  (forall e, po = Some e -> e_name e = n) -> (forall e, ro = Some e -> e_name e = n) ->
  (po = None -> forall e, In e (pend q) -> e_name e <> n) ->
  (ro = None -> forall e, In e (run q) -> e_name e <> n) ->
  In x (names q) -> In x (names (sched_with m n v t q po ro)).
Proof.
  intros Hpo Hro Hpn Hrn Hx. unfold sched_with.
  destruct (f_if_absent (flags m) && (is_some po || is_some ro)) eqn:Hskip; [exact Hx|].
  destruct (N.eq_dec x n) as [->|Hne].
  - apply names_in. eexists. split; [left; simpl; left; reflexivity|]. reflexivity.
  - apply names_in in Hx. destruct Hx as [e [[He|He] Hn]]; apply names_in; exists e; split; auto; simpl.
    + left. right. apply in_del. split.
      * destruct (f_del_pending (flags m)); auto. destruct po as [p|]; simpl; auto.
        apply in_del. split; auto. intros E. specialize (Hpo p eq_refl).
        assert (e_name e = e_name p) by (unfold ekey in E; inv E; auto). congruence.
      * unfold ekey; simpl. intros E. inv E. congruence.
    + right. destruct (f_del_running (flags m)); auto. destruct ro as [r|]; simpl; auto.
      apply in_del. split; auto. intros E. specialize (Hro r eq_refl).
      assert (e_name e = e_name r) by (unfold ekey in E; inv E; auto). congruence.
Qed.

Lemma schedule_keeps_names m n v t q q' x :
  In q' (schedule m n v t q) -> In x (names q) -> In x (names q').
Proof.
  intros H Hx. apply in_schedule in H. destruct H as [po [ro [Hpo [Hro ->]]]].
  apply sched_with_keeps_names; auto.
  - intros e ->. apply pick_named_some in Hpo. tauto.
  - intros e ->. apply pick_named_some in Hro. tauto.
  - intros ->. apply pick_named_none. auto.
  - intros ->. apply pick_named_none. auto.
Qed.

Lemma resched_keeps_names k t q x : In x (names q) -> In x (names (fst (resched k t q))).
Proof.
  intros Hx. unfold resched. destruct (get (run q) k) as [e|] eqn:E; cbn [fst]; auto.
  apply get_some in E. destruct E as [He Hk].
  destruct (N.eq_dec x (e_name e)) as [->|Hne].
  - apply names_in. eexists. split; [left; simpl; left; reflexivity|]. reflexivity.
  - apply names_in in Hx. destruct Hx as [y [[Hy|Hy] Hn]]; apply names_in; exists y; split; auto; simpl.
    + left. right. apply in_del. split; auto. unfold ekey; simpl. intros E. inv E. congruence.
    + right. apply in_del. split; auto. intros E. assert (ekey y = ekey e) by congruence.
      unfold ekey in H. inv H. congruence.
Qed.

Lemma startup_fold_keeps_names l now_of : forall q x, In x (names q) ->
  In x (names (fold_left (fun acc e => fst (resched (ekey e) (now_of (ekey e)) acc)) l q)).
Proof.
  induction l as [|e l IH]; intros q x Hx; simpl; auto.
  apply IH. apply resched_keeps_names. auto.
Qed.

Theorem no_silent_loss q o q' r x :
  In (q', r) (step q o) -> In x (names q) -> In x (names q') \/ finishes o x.
Proof.
  intros H Hx. destruct o as [m n v t|now now2|k|k t|assign|k tr]; simpl in H.
  - left. apply in_map_iff in H. destruct H as [q0 [E Hq]]. inv E. eapply schedule_keeps_names; eauto.
  - left. unfold claim in H. destruct (min_ts (due now (pend q))) as [m|] eqn:E.
    + apply in_map_iff in H. destruct H as [e [He Hin]]. apply filter_In in Hin. destruct Hin as [Hd _].
      apply in_due in Hd. destruct Hd as [Hp _]. unfold claim_one in He. inv He.
      set (k := if has (run q) (now, e_name e) then (now2, e_name e) else (now, e_name e)).
      assert (Hk : snd k = e_name e) by (unfold k; destruct (has (run q) (now, e_name e)); reflexivity).
      destruct (N.eq_dec x (e_name e)) as [->|Hne].
      * apply names_in. eexists. split; [right; simpl; left; reflexivity|]. simpl. auto.
      * apply names_in in Hx. destruct Hx as [y [[Hy|Hy] Hn]]; apply names_in; exists y; split; auto; simpl.
        -- left. apply in_del. split; auto. intros E'. unfold ekey in E'. inv E'. congruence.
        -- right. right. apply in_del. split; auto. unfold ekey; simpl. intros E'. inv E'. congruence.
    + destruct H as [H|[]]. inv H. auto.
  - destruct H as [H|[]]. unfold finish in H. destruct (has (run q) k) eqn:E; inv H; auto.
    destruct (N.eq_dec (snd k) x) as [Hk|Hk]; [right; exact Hk|]. left.
    apply names_in in Hx. destruct Hx as [y [[Hy|Hy] Hn]]; apply names_in; exists y; split; auto; simpl.
    right. apply in_del. split; auto. intros E'. unfold ekey in E'. subst k. simpl in Hk. congruence.
  - left. destruct H as [H|[]]. pose proof (resched_keeps_names k t q x Hx) as P.
    destruct (resched k t q) as [q0 r0]. inv H. exact P.
  - left. destruct H as [H|[]]. inv H. unfold startup, startup_with.
    destruct (N.of_nat (length (run q)) <? startup_min_running); auto.
    apply startup_fold_keeps_names. auto.
  - destruct tr as [|n v t|t]; simpl in H.
    + destruct H as [H|[]]. unfold finish in H. destruct (has (run q) k) eqn:E; inv H; auto.
      destruct (N.eq_dec (snd k) x) as [Hk|Hk]; [right; exact Hk|]. left.
      apply names_in in Hx. destruct Hx as [y [[Hy|Hy] Hn]]; apply names_in; exists y; split; auto; simpl.
      right. apply in_del. split; auto. intros E'. unfold ekey in E'. subst k. simpl in Hk. congruence.
    + left. apply in_map_iff in H. destruct H as [q0 [E Hq]]. inv E. eapply schedule_keeps_names; eauto.
    + left. destruct H as [H|[]]. pose proof (resched_keeps_names k t q x Hx) as P.
      destruct (resched k t q) as [q0 r0]. inv H. exact P.
Qed.

(** Lifted to operation sequences: a name stays queued as long as it is not finished. *)
Inductive steps : queue -> list op -> queue -> Prop :=
| steps_nil q : steps q [] q
| steps_cons q o q1 r os q2 : In (q1, r) (step q o) -> steps q1 os q2 -> steps q (o :: os) q2.

Theorem never_dropped q os q' x :
  steps q os q' -> In x (names q) -> (forall o, In o os -> ~ finishes o x) -> In x (names q').
Proof.
  induction 1 as [q|q o q1 r os q2 Hs Hrest IH]; intros Hx Hnf; auto.
  apply IH.
  - destruct (no_silent_loss _ _ _ _ _ Hs Hx) as [H|H]; auto. exfalso. eapply Hnf; eauto. left; auto.
  - intros o' Ho'. apply Hnf. right; auto.
Qed.

(** ** Restart *)
Lemma resched_run_subset k t q x : In x (run (fst (resched k t q))) -> In x (run q).
Proof.
  unfold resched. destruct (get (run q) k); simpl; auto. intros H. apply in_del in H. tauto.
Qed.

Lemma startup_fold_run l now_of : forall q x,
  In x (run (fold_left (fun acc e => fst (resched (ekey e) (now_of (ekey e)) acc)) l q)) ->
  In x (run q) /\ (forall e, In e l -> ekey e <> ekey x).
Proof.
  induction l as [|e l IH]; intros q x Hx; simpl in Hx.
  - split; auto; intros e [].
  - apply IH in Hx. destruct Hx as [H1 H2].
    split; [eapply resched_run_subset; eauto|].
    intros y [<-|Hy] Hk; [|eapply H2; eauto].
    unfold resched in H1. destruct (get (run q) (ekey e)) as [e0|] eqn:G; simpl in H1.
    + apply in_del in H1. destruct H1 as [_ Hne]. congruence.
    + apply (get_none _ _ G x H1). auto.
Qed.

(** After start-up nothing is left in the running state, whatever the number of running tasks. *)
Theorem restart_requeues_all now_of q : run (startup now_of q) = [].
Proof.
  unfold startup, startup_with, startup_min_running.
  destruct (N.of_nat (length (run q)) <? 1) eqn:E.
  - apply N.ltb_lt in E. destruct (run q); simpl in *; [reflexivity|lia].
  - destruct (run (fold_left _ (run q) q)) as [|x l] eqn:R; [reflexivity|]. exfalso.
    assert (Hx : In x (run (fold_left (fun acc e => fst (resched (ekey e) (now_of (ekey e)) acc)) (run q) q)))
      by (rewrite R; left; reflexivity).
    apply startup_fold_run in Hx. destruct Hx as [H1 H2]. eapply H2; eauto.
Qed.

(** ... and every task that was running is pending again (by name). *)
Lemma resched_pending_grows k t q x : In x (map e_name (pend q)) -> In x (map e_name (pend (fst (resched k t q)))).
Proof.
  intros Hx. unfold resched. destruct (get (run q) k) as [e|]; simpl; auto.
  apply in_map_iff in Hx. destruct Hx as [y [Hn Hy]].
  destruct (N.eq_dec x (e_name e)); [left; auto|]. right. apply in_map_iff. exists y. split; auto.
  apply in_del. split; auto. unfold ekey; simpl. intros E. inv E. congruence.
Qed.

Lemma startup_fold_pending l now_of : forall q x,
  In x (map e_name (pend q)) ->
  In x (map e_name (pend (fold_left (fun acc e => fst (resched (ekey e) (now_of (ekey e)) acc)) l q))).
Proof.
  induction l as [|e l IH]; intros q x Hx; simpl; auto.
  apply IH. apply resched_pending_grows. auto.
Qed.

Lemma resched_run_keeps k t q x : In x (run q) -> ekey x <> k -> In x (run (fst (resched k t q))).
Proof.
  unfold resched. intros Hx Hk. destruct (get (run q) k); simpl; auto. apply in_del. auto.
Qed.

Theorem restart_running_becomes_pending now_of q e :
  NoDup (map ekey (run q)) ->
  In e (run q) -> In (e_name e) (map e_name (pend (startup now_of q))).
Proof.
  intros Hnd He. unfold startup, startup_with, startup_min_running.
  destruct (N.of_nat (length (run q)) <? 1) eqn:E.
  - apply N.ltb_lt in E. destruct (run q); simpl in *; [destruct He|lia].
  - clear E.
    assert (G : forall l q0, NoDup (map ekey l) -> In e l -> (forall y, In y l -> In y (run q0)) ->
      In (e_name e) (map e_name (pend (fold_left (fun acc e => fst (resched (ekey e) (now_of (ekey e)) acc)) l q0)))).
    { induction l as [|a l IH]; intros q0 Hnd0 Hin Hsub; [destruct Hin|]. simpl.
      inv Hnd0. destruct Hin as [->|Hin].
      - apply startup_fold_pending.
        unfold resched. destruct (get (run q0) (ekey e)) as [e0|] eqn:G.
        + simpl. left. apply get_some in G. destruct G as [_ G]. unfold ekey in G. inv G. reflexivity.
        + exfalso. eapply get_none in G; [|apply Hsub; left; reflexivity]. congruence.
      - apply IH; auto. intros y Hy.
        apply resched_run_keeps; [apply Hsub; right; auto|].
        intros E. apply H1. rewrite <- E. apply in_map. auto. }
    apply G; auto.
Qed.

(** ** queue_start_tasks: every recurring task is queued again after a start. *)
Lemma start_tasks_in tasks : forall qs q',
  In q' (fold_left (fun qs '(n, v, t) => flat_map (schedule (tq_mode TqScheduleMissing) n v t) qs) tasks qs) ->
  exists q0, In q0 qs /\
    (forall x, In x (names q0) -> In x (names q')) /\
    (forall n v t, In (n, v, t) tasks -> In n (names q')).
Proof.
  induction tasks as [|[[n v] t] tasks IH]; intros qs q' H; simpl in H.
  - exists q'. repeat split; auto. intros n v t [].
  - apply IH in H. destruct H as [q1 [Hq1 [Hk Hall]]].
    apply in_flat_map in Hq1. destruct Hq1 as [q0 [Hq0 Hs]].
    exists q0. split; auto. split.
    + intros x Hx. apply Hk. eapply schedule_keeps_names; eauto.
    + intros n' v' t' [E|Hin]; [|eauto]. inv E. apply Hk.
      simpl in Hs. apply if_missing_spec in Hs. destruct Hs as [[H1 ->]|[H1 ->]]; auto.
      apply names_in. eexists. split; [left; simpl; left; reflexivity|reflexivity].
Qed.

Theorem recurring_rescheduled_after_every_start now_of tasks q q' :
  In q' (start_tasks tasks (startup now_of q)) ->
  forall n v t, In (n, v, t) tasks -> In n (map e_name (pend q')).
Proof.
  intros H n v t Hin. unfold start_tasks in H.
  assert (Hrun : forall q1 q2 n0 v0 t0, In q2 (schedule IfMissing n0 v0 t0 q1) -> run q2 = run q1).
  { intros q1 q2 n0 v0 t0 Hs. apply if_missing_spec in Hs. destruct Hs as [[_ ->]|[_ ->]]; reflexivity. }
  assert (Hrun' : forall tasks0 qs0 q2, In q2 (fold_left (fun qs '(n, v, t) => flat_map (schedule (tq_mode TqScheduleMissing) n v t) qs) tasks0 qs0) ->
     exists q1, In q1 qs0 /\ run q2 = run q1).
  { induction tasks0 as [|[[n0 v0] t0] tasks0 IH]; intros qs0 q2 H2; simpl in H2; [eauto|].
    apply IH in H2. destruct H2 as [q1 [Hq1 E]]. apply in_flat_map in Hq1. destruct Hq1 as [q0 [Hq0 Hs]].
    exists q0. split; auto. rewrite E. eapply Hrun; eauto. }
  pose proof (Hrun' _ _ _ H) as [q1 [[<-|[]] Er]].
  apply start_tasks_in in H. destruct H as [q0 [[<-|[]] [_ Hall]]].
  specialize (Hall n v t Hin). apply names_in in Hall. destruct Hall as [e [[He|He] Hn]].
  - apply in_map_iff. eauto.
  - rewrite Er, restart_requeues_all in He. destruct He.
Qed.

(** ** The pinned guard ([keys.len() > 1], i.e. min_running = 2) refutes the restart law:
    a single running task is neither re-queued nor replaced by schedule_missing. *)
Example restart_single_running_refuted_for_guard_2 :
  let q := mkQ [] [mkE 5 7 1] in
  let q' := startup_with 2 (fun _ => 9) q in
  run q' = [mkE 5 7 1] /\ pend q' = [] /\
  schedule IfMissing 7 1 9 q' = [q'].
Proof. vm_compute. repeat split. Qed.

(** Non-vacuity: a concrete restart with one running recurring task. *)
Example restart_nonvacuous :
  let q := mkQ [] [mkE 5 7 1] in
  startup (fun _ => 9) q = mkQ [mkE 9 7 1] [].
Proof. vm_compute. reflexivity. Qed.

(** ** Result handling: a task that reports FollowUp of its own name or Reschedule stays queued;
    finishing removes exactly the running key. *)
Theorem handle_keeps_unless_done k r q q' res0 x :
  In (q', res0) (handle_result k r q) -> In x (names q) -> r <> Done -> In x (names q').
Proof.
  intros H Hx Hr. destruct (no_silent_loss q (OHandle k r) q' res0 x H Hx) as [P|P]; auto.
  simpl in P. destruct r; try contradiction; congruence.
Qed.

Theorem followup_self_requeues k n v t q q' res0 :
  In (q', res0) (handle_result k (FollowUp n v t) q) ->
  (exists e, In e (pend q') /\ e_name e = n /\ e_val e = v /\ e_ts e <= t) /\
  (forall e, In e (run q') -> In e (run q)).
Proof.
  simpl. intros H. apply in_map_iff in H. destruct H as [q0 [E Hs]]. inv E. split.
  - apply soonest_keeps_earlier in Hs; auto. destruct Hs as [e [H1 [H2 [H3 [H4 _]]]]]. eauto.
  - apply in_schedule in Hs. destruct Hs as [po [ro [_ [_ ->]]]]. unfold sched_with. simpl.
    intros e He. destruct ro; simpl in He; auto. apply in_del in He. tauto.
Qed.

Theorem followup_finishes_running k n v t q q' res0 ro :
  In (q', res0) (handle_result k (FollowUp n v t) q) ->
  In ro (run q) -> e_name ro = n ->
  (forall x, In x (run q) -> e_name x = n -> x = ro) ->
  ~ In ro (run q').
Proof.
  simpl. intros H Hro Hn Huniq. apply in_map_iff in H. destruct H as [q0 [E Hs]]. inv E.
  apply in_schedule in Hs. destruct Hs as [po [r [_ [Hr ->]]]]. unfold sched_with. simpl.
  destruct r as [r|].
  - apply pick_named_some in Hr. destruct Hr as [Hr1 Hr2]. assert (r = ro) by auto. subst r.
    simpl. intros Hin. apply in_del in Hin. destruct Hin as [_ Hne]. congruence.
  - rewrite pick_named_none in Hr. exfalso. eapply Hr; eauto.
Qed.
