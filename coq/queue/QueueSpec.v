(** Obligations that tie the hand-written queue model to the tables that
    translate/t_queue.py regenerates from /repo on every run (gen/GenQueue.v),
    and the follow-up completeness statements over those tables. *)
From Coq Require Import String.
From KV Require Import base.Tac queue.Queue queue.FollowSpec gen.GenQueue.
Open Scope string_scope.

Theorem GenQueue_flags_agree : forall m, gen_flags m = flags m.
Proof. destruct m; reflexivity. Qed.

Theorem GenQueue_tq_agree : forall e, gen_tq_mode e = tq_mode e.
Proof. destruct e; reflexivity. Qed.

Theorem GenQueue_startup_agree : gen_startup_min_running = startup_min_running.
Proof. reflexivity. Qed.

Theorem GenQueue_shapes_recognised : gen_unrecognised_shapes = [] /\ gen_startup_order_ok = true.
Proof. split; reflexivity. Qed.

Theorem GenQueue_run_loop_agrees :
  gen_run_loop = [("Done", "finish"); ("FollowUp", "schedule_and_finish_existing"); ("Reschedule", "reschedule")].
Proof. reflexivity. Qed.

(** ** Follow-ups implied by committed changes.
    (event constructor, task that must be scheduled in the pre-save step, guards under which the
    call may sit). *)
Theorem followups_complete :
  forall req, In req required_ca_followups -> has_followup gen_ca_pre_save req = true.
Proof. apply forallb_forall. vm_compute. reflexivity. Qed.

Theorem ta_followups_complete :
  forall req, In req required_ta_pre -> has_followup gen_ta_pre_save req = true.
Proof. apply forallb_forall. vm_compute. reflexivity. Qed.

(** Local children are told to sync when their entitlement or keys change at the parent, and TA
    children when a signer response arrives (post-save, best effort). *)
Theorem post_save_child_sync :
  forallb (fun ev => existsb (fun '(ev', l) => String.eqb ev ev' &&
       existsb (fun '(_, t, _) => String.eqb t "SyncParent") l) gen_ca_post_save)
    ["ChildUpdatedResources"; "ChildKeyRevoked"] = true
  /\ existsb (fun '(ev', l) => String.eqb "SignerResponseReceived" ev' &&
       existsb (fun '(_, t, _) => String.eqb t "SyncParent") l) gen_ta_post_save = true.
Proof. split; vm_compute; reflexivity. Qed.

(** ** Recurring maintenance: queued at every start, never reports Done. *)
Definition lookup_process (t : string) : list (string * string) :=
  match find (fun '(t', _) => String.eqb t t') gen_process with Some (_, r) => r | None => [] end.

Theorem recurring_queued_at_start :
  forall t, In t recurring -> existsb (fun '(e, t', g) => String.eqb e "schedule_missing" && String.eqb t t' && String.eqb g "") gen_start_tasks = true.
Proof. apply forallb_forall. vm_compute. reflexivity. Qed.

Theorem per_ca_tasks_queued_at_start :
  existsb (fun '(e, t', g) => String.eqb e "schedule_missing" && String.eqb "SyncParent" t' && String.eqb g g_parents) gen_start_tasks = true.
Proof. vm_compute. reflexivity. Qed.

Theorem recurring_never_done :
  forall t, In t (recurring ++ ["RenewTestbedTa"; "RefreshAnnouncementsInfo"]) -> lookup_process t = [("FollowUp", t)].
Proof.
  intros t H. repeat (destruct H as [<-|H]; [vm_compute; reflexivity|]). destruct H.
Qed.

(** Every follow-up re-queues the task that reported it (same constructor), so
    schedule_and_finish_existing finishes the running instance of that very task. *)
Theorem followup_targets_self :
  forallb (fun '(t, rs) => forallb (fun '(k, tgt) => negb (String.eqb k "FollowUp") || String.eqb tgt t) rs) gen_process = true.
Proof. vm_compute. reflexivity. Qed.

(** Every task constructor is handled and every handler result is one of the three known kinds. *)
Theorem process_total :
  map fst gen_process =
  ["QueueStartTasks"; "SyncRepo"; "SyncParent"; "RenewTestbedTa"; "SyncTrustAnchorProxySignerIfPossible";
   "SuspendChildrenIfNeeded"; "RepublishIfNeeded"; "RenewObjectsIfNeeded"; "UpdateSnapshots"; "RrdpUpdateIfNeeded";
   "ResourceClassRemoved"; "UnexpectedKey"; "RefreshAnnouncementsInfo"; "SweepLoginCache"].
Proof. reflexivity. Qed.
