(** Definitions only (no proofs, no dependency on the regenerated tables): the follow-up requirements that
    queue/QueueSpec.v proves about the regenerated tables and that queue/FollowCheck.v evaluates on the running
    system. Kept apart so that a broken obligation in QueueSpec.v cannot keep the executable oracle from being
    evaluated. *)
From Coq Require Import String.
From KV Require Import base.Tac.
Open Scope string_scope.

Definition g_none := "".
Definition g_parent_for_rc := "if let Ok(parent) = ca.parent_for_rc(resource_class_name)".
Definition g_repo := "if ca.repository_contact().is_ok()".
Definition g_parents := "for parent in ca.parents()".

Definition required_ca_followups : list (string * string * list string) :=
  [ ("RoasUpdated", "SyncRepo", [g_none]);
    ("AspaObjectsUpdated", "SyncRepo", [g_none]);
    ("ChildCertificatesUpdated", "SyncRepo", [g_none]);
    ("BgpSecCertificatesUpdated", "SyncRepo", [g_none]);
    ("ChildKeyRevoked", "SyncRepo", [g_none]);
    ("KeyPendingToNew", "SyncRepo", [g_none]);
    ("KeyPendingToActive", "SyncRepo", [g_none]);
    ("KeyRollFinished", "SyncRepo", [g_none]);
    ("KeyRollActivated", "SyncRepo", [g_none]);
    ("KeyRollActivated", "SyncParent", [g_none; g_parent_for_rc]);
    ("ParentRemoved", "SyncRepo", [g_none]);
    ("ResourceClassRemoved", "SyncRepo", [g_none]);
    ("ResourceClassRemoved", "ResourceClassRemoved", [g_none]);
    ("UnexpectedKeyFound", "UnexpectedKey", [g_none]);
    ("ParentAdded", "SyncParent", [g_none; g_repo]);
    ("ParentUpdated", "SyncParent", [g_none; g_repo]);
    ("RepoUpdated", "SyncParent", [g_parents]);
    ("CertificateRequested", "SyncParent", [g_none; g_parent_for_rc]) ].

Definition required_ta_pre : list (string * string * list string) :=
  [ ("ChildRequestAdded", "SyncTrustAnchorProxySignerIfPossible", [g_none]);
    ("SignerResponseReceived", "SyncRepo", [g_none]) ].

Definition mem_str (s : string) (l : list string) : bool := existsb (String.eqb s) l.

Definition has_followup (table : list (string * list (string * string * string)))
           (req : string * string * list string) : bool :=
  let '(ev, task, guards) := req in
  existsb (fun '(ev', l) => String.eqb ev ev' &&
             existsb (fun '(entry, t, g) => String.eqb entry "schedule" && String.eqb t task && mem_str g guards) l)
          table.


Definition recurring : list string := ["RepublishIfNeeded"; "RenewObjectsIfNeeded"; "UpdateSnapshots"].
Definition recurring_conditional : list string := ["RenewTestbedTa"; "RefreshAnnouncementsInfo"; "SuspendChildrenIfNeeded"].

