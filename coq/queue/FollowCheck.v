(** C09, follow-up completeness on the running system.

    queue/QueueSpec.v proves, over the tables that translate/t_queue.py regenerates from the source, that every
    event that implies a follow-up has its [schedule] call in the pre-save listener ([followups_complete],
    [ta_followups_complete], [post_save_child_sync]), that the recurring tasks are queued at every start
    ([recurring_queued_at_start], [per_ca_tasks_queued_at_start]) and never report Done.
    This file is the executable form of those statements, evaluated on what the IMPLEMENTATION queued:
    after every committed command of a CA (and of the TA proxy) the harness reports the stored events and
    the tasks pending in the queue (the queue is emptied before the command, so what is pending was queued
    by it); after a start the pending tasks; after a publication the pending tasks. *)
From Coq Require Import String.
From KV Require Import base.Tac queue.FollowSpec.
Open Scope N_scope.
Open Scope string_scope.

(** A queued task as observed: kind (the Task constructor), CA, parent (0 where the task has none). *)
Record ftask := mkT { t_kind : string; t_ca : N; t_parent : N }.

(** A stored event as observed: constructor, the parent of the resource class the event names (from the CA
    state before or after the command), the parent the event names, the local child the event names. *)
Record fev := mkEv { ev_name : string; ev_class_parent : option N; ev_parent : option N; ev_child : option N }.

Inductive fcase :=
| FCmd (ca : N) (has_repo : bool) (parents : list N) (evs : list fev) (pending : list ftask)
| FTa (evs : list string) (pending : list ftask)
| FStart (cas : list (N * list N)) (pending : list ftask)
| FPublish (running_before : bool) (pending : list ftask)
| FNames (distinct_tasks pending_entries : N).

Definition has_task (t : ftask) (l : list ftask) : bool :=
  existsb (fun x => String.eqb (t_kind x) (t_kind t) && N.eqb (t_ca x) (t_ca t)
                    && (N.eqb (t_parent t) 0 || N.eqb (t_parent x) (t_parent t))) l.
Definition has_kind (k : string) (l : list ftask) : bool := existsb (fun x => String.eqb (t_kind x) k) l.

Definition parent_of (e : fev) : option N :=
  match ev_parent e with Some p => Some p | None => ev_class_parent e end.

(** The tasks one row of [required_ca_followups] demands for one observed event of CA [ca]. *)
Definition required_tasks (ca : N) (has_repo : bool) (parents : list N) (e : fev)
           (row : string * string * list string) : list ftask :=
  let '(ev, task, guards) := row in
  if negb (String.eqb ev (ev_name e)) then []
  else if mem_str g_parents guards then map (fun p => mkT task ca p) parents
  else if String.eqb task "SyncParent" then
    match parent_of e with
    | Some p => if mem_str g_repo guards && negb has_repo then [] else [mkT task ca p]
    | None => []
    end
  else [mkT task ca 0].

(** Post-save: a local child is told to sync when its entitlement or keys change at the parent. *)
Definition required_child_sync (ca : N) (e : fev) : list ftask :=
  if mem_str (ev_name e) ["ChildUpdatedResources"; "ChildKeyRevoked"] then
    match ev_child e with Some c => [mkT "SyncParent" c ca] | None => [] end
  else [].

Definition cmd_required (ca : N) (has_repo : bool) (parents : list N) (evs : list fev) : list ftask :=
  flat_map (fun e => app (flat_map (required_tasks ca has_repo parents e) required_ca_followups) (required_child_sync ca e)) evs.

Definition follow_ok (c : fcase) : bool :=
  match c with
  | FCmd ca has_repo parents evs pending =>
      forallb (fun t => has_task t pending) (cmd_required ca has_repo parents evs)
  | FTa evs pending =>
      forallb (fun '(ev, task, _) => negb (mem_str ev evs) || has_kind task pending) required_ta_pre
  | FStart cas pending =>
      forallb (fun k => has_kind k pending) recurring
      && forallb (fun '(ca, ps) => forallb (fun p => has_task (mkT "SyncParent" ca p) pending) ps) cas
  | FPublish _ pending => has_kind "RrdpUpdateIfNeeded" pending
  (* tasks that differ in CA, parent, class or key are queued under different names: none replaces another
     (queue/TaskName.v proves it for the name format, for handles without '_') *)
  | FNames n m => N.eqb n m
  end.

(** The oracle is not vacuous: a ROA change queues a repository sync, and a command that lost it fails. *)
Example follow_ok_examples :
  follow_ok (FCmd 1 true [2] [mkEv "RoasUpdated" (Some 2) None None] [mkT "SyncRepo" 1 0]) = true
  /\ follow_ok (FCmd 1 true [2] [mkEv "RoasUpdated" (Some 2) None None] []) = false
  /\ follow_ok (FCmd 1 true [2] [mkEv "ChildKeyRevoked" None None (Some 5)] [mkT "SyncRepo" 1 0]) = false
  /\ follow_ok (FCmd 1 true [2] [mkEv "ChildKeyRevoked" None None (Some 5)] [mkT "SyncRepo" 1 0; mkT "SyncParent" 5 1]) = true
  /\ follow_ok (FCmd 1 true [2; 3] [mkEv "RepoUpdated" None None None] [mkT "SyncParent" 1 2]) = false
  /\ follow_ok (FStart [] [mkT "RepublishIfNeeded" 0 0; mkT "RenewObjectsIfNeeded" 0 0; mkT "UpdateSnapshots" 0 0]) = true
  /\ follow_ok (FStart [] []) = false
  /\ follow_ok (FPublish true []) = false
  /\ follow_ok (FNames 12 11) = false /\ follow_ok (FNames 12 12) = true.
Proof. vm_compute. repeat split. Qed.

Fixpoint failing_from (f : fcase -> bool) (i : N) (l : list fcase) : list N :=
  match l with
  | [] => []
  | x :: r => if f x then failing_from f (i + 1) r else i :: failing_from f (i + 1) r
  end.
Definition failing (f : fcase -> bool) (base : N) (l : list fcase) : list N := failing_from f base l.
