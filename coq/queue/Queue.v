(** Model of the persistent task queue: src/commons/queue.rs (Queue) and the
    TaskQueue layer / scheduler result handling of src/server/mq.rs and
    src/server/scheduler.rs.

    The key-value store keeps two scopes, "pending" and "running"; a key is
    "<timestamp>-<name>". A scope is modelled as a list of entries that is a
    finite map on keys ([put] overwrites, as HashMap::insert / rename(2) do).
    The listing order of the store is arbitrary (HashMap / readdir), so every
    place where the Rust code takes "the first matching key of a listing" is
    modelled by the list of all possible outcomes.

    No proofs in this file. *)
From KV Require Import base.Tac.
Open Scope N_scope.

Record entry := mkE { e_ts : N; e_name : N; e_val : N }.
Definition key : Type := (N * N)%type.          (* (timestamp, name) *)
Definition ekey (e : entry) : key := (e_ts e, e_name e).
Definition key_eqb (a b : key) : bool := (fst a =? fst b) && (snd a =? snd b).
Definition scope : Type := list entry.
Record queue := mkQ { pend : scope; run : scope }.

Definition has (s : scope) (k : key) : bool := existsb (fun e => key_eqb (ekey e) k) s.
Definition get (s : scope) (k : key) : option entry := find (fun e => key_eqb (ekey e) k) s.
Definition del (s : scope) (k : key) : scope := filter (fun e => negb (key_eqb (ekey e) k)) s.
Definition put (s : scope) (e : entry) : scope := e :: del s (ekey e).
Definition named (s : scope) (n : N) : scope := filter (fun e => e_name e =? n) s.

(** [get_storage_key_and_time]: find_map over a listing in arbitrary order. *)
Definition pick_named (s : scope) (n : N) : list (option entry) :=
  match named s n with [] => [None] | l => map Some l end.

Definition del_opt (s : scope) (o : option entry) : scope :=
  match o with Some e => del s (ekey e) | None => s end.

(** * ScheduleMode (queue.rs:108-148) *)
Inductive mode := ReplaceExisting | ReplaceExistingSoonest | FinishOrReplaceExisting
                | FinishOrReplaceExistingSoonest | IfMissing.

(** What each arm of the [match mode] does:
    (delete running, delete pending, take the minimum timestamp, keep only if absent). *)
Record mode_flags := mkF { f_del_running : bool; f_del_pending : bool; f_min : bool; f_if_absent : bool }.

Definition flags (m : mode) : mode_flags :=
  match m with
  | ReplaceExisting => mkF false true false false
  | ReplaceExistingSoonest => mkF false true true false
  | FinishOrReplaceExisting => mkF true true false false
  | FinishOrReplaceExistingSoonest => mkF true true true false
  | IfMissing => mkF false false false true
  end.

Definition is_some {A} (o : option A) : bool := match o with Some _ => true | None => false end.

Definition sched_with (m : mode) (n v t : N) (q : queue) (po ro : option entry) : queue :=
  let f := flags m in
  if f_if_absent f && (is_some po || is_some ro) then q else
  let r := if f_del_running f then del_opt (run q) ro else run q in
  let p := if f_del_pending f then del_opt (pend q) po else pend q in
  let t' := if f_min f then match po with Some e => N.min t (e_ts e) | None => t end else t in
  mkQ (put p (mkE t' n v)) r.

Definition schedule (m : mode) (n v t : N) (q : queue) : list queue :=
  flat_map (fun po => map (fun ro => sched_with m n v t q po ro) (pick_named (run q) n))
           (pick_named (pend q) n).

(** * Results *)
Inductive res := ROk | RErr | RNone | RClaimed (k : key) (v : N).

(** * claim_scheduled_pending_task (queue.rs:218-272) *)
Definition due (now : N) (s : scope) : scope := filter (fun e => e_ts e <=? now) s.

Definition min_ts (l : scope) : option N :=
  fold_left (fun acc e => match acc with None => Some (e_ts e) | Some m => Some (N.min m (e_ts e)) end) l None.

Definition claim_one (now now2 : N) (q : queue) (e : entry) : queue * res :=
  let k1 := (now, e_name e) in
  let k := if has (run q) k1 then (now2, e_name e) else k1 in
  (mkQ (del (pend q) (ekey e)) (put (run q) (mkE (fst k) (snd k) (e_val e))), RClaimed k (e_val e)).

Definition claim (now now2 : N) (q : queue) : list (queue * res) :=
  match min_ts (due now (pend q)) with
  | None => [(q, RNone)]
  | Some m => map (claim_one now now2 q) (filter (fun e => e_ts e =? m) (due now (pend q)))
  end.

(** * finish_running_task / reschedule_running_task (queue.rs:180-215) *)
Definition finish (k : key) (q : queue) : queue * res :=
  if has (run q) k then (mkQ (pend q) (del (run q) k), ROk) else (q, RErr).

Definition resched (k : key) (t : N) (q : queue) : queue * res :=
  match get (run q) k with
  | Some e => (mkQ (put (pend q) (mkE t (e_name e) (e_val e))) (del (run q) k), ROk)
  | None => (q, RErr)
  end.

(** * reschedule_tasks_at_startup (mq.rs:396-412).
    [min_running] is the number of running keys from which on the loop is
    entered: the guard is [keys.len() >= min_running]. It is regenerated from
    the source (gen/GenQueue.v); the repaired tree has 1 ("not empty"), the
    originally pinned tree had 2 ("more than one"). [now_of] gives the clock
    reading used for each rescheduled key.

    The loop's test [key.as_ref() != queue_started_key_name.as_ref()] compares a
    storage key ("<ts>-<name>") with a bare task name and is therefore always
    true: the start-up task is re-queued like every other task (found by the
    correspondence run; harmless, because run_scheduler schedules it anyway).
    The model follows the code. *)
Definition startup_with (min_running : N) (now_of : key -> N) (q : queue) : queue :=
  if N.of_nat (length (run q)) <? min_running then q else
  fold_left (fun acc e => fst (resched (ekey e) (now_of (ekey e)) acc)) (run q) q.

(** The model proper uses the repaired guard; GenQueue_agrees ties it to the source. *)
Definition startup_min_running : N := 1.
Definition startup := startup_with startup_min_running.

(** * TaskQueue layer (mq.rs:320-353): which mode each entry point uses. *)
Inductive tq_entry := TqSchedule | TqScheduleAndFinish | TqScheduleMissing.
Definition tq_mode (e : tq_entry) : mode :=
  match e with
  | TqSchedule => ReplaceExistingSoonest
  | TqScheduleAndFinish => FinishOrReplaceExistingSoonest
  | TqScheduleMissing => IfMissing
  end.

(** * Scheduler loop's treatment of a task result (scheduler.rs:76-111) *)
Inductive tresult := Done | FollowUp (n v t : N) | Reschedule (t : N).

Definition handle_result (k : key) (r : tresult) (q : queue) : list (queue * res) :=
  match r with
  | Done => [finish k q]
  | FollowUp n v t => map (fun q' => (q', ROk)) (schedule (tq_mode TqScheduleAndFinish) n v t q)
  | Reschedule t => [resched k t q]
  end.

(** * queue_start_tasks (scheduler.rs:197-312): schedule_missing for every
    recurring task. [tasks] is the list (name, value, time). *)
Definition start_tasks (tasks : list (N * N * N)) (q : queue) : list queue :=
  fold_left (fun qs '(n, v, t) => flat_map (schedule (tq_mode TqScheduleMissing) n v t) qs) tasks [q].

(** * Operations of the correspondence *)
Inductive op :=
| OSchedule (m : mode) (n v t : N)
| OClaim (now now2 : N)
| OFinish (k : key)
| OResched (k : key) (t : N)
| OStartup (assign : list (key * N))
| OHandle (k : key) (r : tresult).

Fixpoint lookup_assign (assign : list (key * N)) (k : key) : N :=
  match assign with
  | [] => 0
  | (k', t) :: rest => if key_eqb k' k then t else lookup_assign rest k
  end.

Definition step (q : queue) (o : op) : list (queue * res) :=
  match o with
  | OSchedule m n v t => map (fun q' => (q', ROk)) (schedule m n v t q)
  | OClaim now now2 => claim now now2 q
  | OFinish k => [finish k q]
  | OResched k t => [resched k t q]
  | OStartup assign => [(startup (lookup_assign assign) q, ROk)]
  | OHandle k r => handle_result k r q
  end.

Definition names (q : queue) : list N := map e_name (pend q ++ run q).
