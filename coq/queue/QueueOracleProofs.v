(** Machine-checked link between the task-queue model (Queue.v) and the
    executable oracle of C09 (QueueCheck.v).

    - [step_meets_oracle]: every outcome of the model's [step] satisfies the
      oracle [c09_ok]. This holds for EVERY queue: no well-formedness
      hypothesis is needed (in particular the name-based restart clause of the
      oracle does not need distinct storage keys, see
      [restart_running_becomes_pending_any], which strengthens
      [QueueProofs.restart_running_becomes_pending]).
    - [c09_ok_post_invariant]: the oracle depends on the observed post queue
      only up to [queue_eqb] (permutation of the two scopes).
    - [agrees_meets_oracle]: if the observed transition is one of the model's
      outcomes ([agrees]) then the oracle accepts it.
    - [wf]: storage keys are distinct within "pending" and within "running"
      (the finite-map reading of a scope). It is an invariant of [step]
      ([wf_empty], [wf_step], [wf_steps]). [model_step_meets_oracle] and
      [agrees_implies_ok] are the statements in the form "for well-formed
      queues"; they are instances of the unconditional theorems. *)
From KV Require Import base.Tac queue.Queue queue.QueueProofs queue.QueueCheck.
Open Scope N_scope.

(** ** Boolean helpers of the checker *)
Lemma memN_true n l : memN n l = true <-> In n l.
Proof.
  unfold memN. rewrite existsb_exists. split.
  - intros [x [Hx E]]. apply N.eqb_eq in E. subst x. exact Hx.
  - intros H. exists n. split; [exact H|apply N.eqb_refl].
Qed.

Lemma entry_eqb_eq a b : entry_eqb a b = true <-> a = b.
Proof.
  destruct a as [a1 a2 a3], b as [b1 b2 b3]. unfold entry_eqb. cbn [e_ts e_name e_val].
  rewrite !andb_true_iff, !N.eqb_eq. split.
  - intros [[-> ->] ->]. reflexivity.
  - intros E. injection E as E1 E2 E3. auto.
Qed.

Lemma entry_eqb_refl a : entry_eqb a a = true.
Proof. apply entry_eqb_eq. reflexivity. Qed.

Lemma mem_entry_true e l : mem_entry e l = true <-> In e l.
Proof.
  unfold mem_entry. rewrite existsb_exists. split.
  - intros [x [Hx E]]. apply entry_eqb_eq in E. subst x. exact Hx.
  - intros H. exists e. split; [exact H|apply entry_eqb_refl].
Qed.

Lemma list_eqb_entry_eq : forall a b : scope, list_eqb entry_eqb a b = true <-> a = b.
Proof.
  induction a as [|x a IH]; intros [|y b]; cbn [list_eqb].
  - tauto.
  - split; discriminate.
  - split; discriminate.
  - rewrite andb_true_iff, entry_eqb_eq, IH. split.
    + intros [-> ->]. reflexivity.
    + intros E. injection E as E1 E2. auto.
Qed.

Lemma scope_eqb_true a b : scope_eqb a b = true <-> isort a = isort b.
Proof. unfold scope_eqb. apply list_eqb_entry_eq. Qed.

Lemma res_eqb_true a b : res_eqb a b = true -> a = b.
Proof.
  destruct a as [| | |k v], b as [| | |k' v']; cbn [res_eqb]; try discriminate; try reflexivity.
  rewrite andb_true_iff, key_eqb_eq, N.eqb_eq. intros [-> ->]. reflexivity.
Qed.

Lemma existsb_same_elems {A} (f : A -> bool) a b :
  (forall x, In x a <-> In x b) -> existsb f a = existsb f b.
Proof.
  intros H. destruct (existsb f a) eqn:Ea; symmetry.
  - apply existsb_exists in Ea. destruct Ea as [x [Hx Hf]]. apply existsb_exists.
    exists x. split; [apply H; exact Hx|exact Hf].
  - apply existsb_false. intros x Hx. apply (proj1 (existsb_false f a) Ea). apply H. exact Hx.
Qed.

Lemma existsb_ext_fun {A} (f g : A -> bool) l : (forall x, f x = g x) -> existsb f l = existsb g l.
Proof. intros H. induction l as [|x l IH]; cbn [existsb]; [reflexivity|]. rewrite H, IH. reflexivity. Qed.

Lemma forallb_ext_fun {A} (f g : A -> bool) l : (forall x, f x = g x) -> forallb f l = forallb g l.
Proof. intros H. induction l as [|x l IH]; cbn [forallb]; [reflexivity|]. rewrite H, IH. reflexivity. Qed.

(** ** Insertion sort keeps the elements *)
Lemma in_insert e l x : In x (insert e l) <-> x = e \/ In x l.
Proof.
  induction l as [|y l IH]; cbn [insert].
  - cbn [In]. intuition congruence.
  - destruct (entry_leb e y); cbn [In]; [|rewrite IH]; intuition congruence.
Qed.

Lemma in_isort l x : In x (isort l) <-> In x l.
Proof.
  unfold isort. induction l as [|y l IH]; cbn [fold_right]; [tauto|].
  rewrite in_insert, IH. cbn [In]. intuition congruence.
Qed.

Lemma insert_not_nil e l : insert e l <> [].
Proof. destruct l as [|y l]; cbn [insert]; [discriminate|]. destruct (entry_leb e y); discriminate. Qed.

Lemma isort_same_elems a b : isort a = isort b -> forall x, In x a <-> In x b.
Proof. intros H x. rewrite <- (in_isort a), <- (in_isort b), H. tauto. Qed.

Lemma isort_same_nil a b : isort a = isort b ->
  match a with [] => true | _ => false end = match b with [] => true | _ => false end.
Proof.
  destruct a as [|x a], b as [|y b]; try reflexivity; unfold isort; cbn [fold_right]; intros H; exfalso.
  - symmetry in H. exact (insert_not_nil _ _ H).
  - exact (insert_not_nil _ _ H).
Qed.

(** ** Equality of queues up to order *)
Definition sim (a b : queue) : Prop :=
  isort (pend a) = isort (pend b) /\ isort (run a) = isort (run b).

Lemma queue_eqb_sim a b : queue_eqb a b = true <-> sim a b.
Proof. unfold queue_eqb, sim. rewrite andb_true_iff, !scope_eqb_true. tauto. Qed.

Lemma queue_eqb_refl q : queue_eqb q q = true.
Proof. apply queue_eqb_sim. split; reflexivity. Qed.

(** The oracle reads the post queue only through membership tests, emptiness
    of "running" and [queue_eqb]: it cannot tell two [queue_eqb] posts apart. *)
Theorem c09_ok_post_invariant q o q1 q2 r :
  queue_eqb q1 q2 = true -> c09_ok (mkCase q o q1 r) = c09_ok (mkCase q o q2 r).
Proof.
  intros H. apply queue_eqb_sim in H. destruct H as [Hp Hr].
  pose proof (isort_same_elems _ _ Hp) as Sp. pose proof (isort_same_elems _ _ Hr) as Sr.
  assert (Hn : forall n, memN n (names q1) = memN n (names q2)).
  { intros n. unfold memN. apply existsb_same_elems. intros x. unfold names.
    rewrite !in_map_iff. split; intros [e [E He]]; exists e; (split; [exact E|]);
    rewrite in_app_iff in *; destruct He as [He|He]; [left|right|left|right];
    first [apply Sp; exact He | apply Sr; exact He]. }
  assert (Hnp : forall n, memN n (map e_name (pend q1)) = memN n (map e_name (pend q2))).
  { intros n. unfold memN. apply existsb_same_elems. intros x.
    rewrite !in_map_iff. split; intros [e [E He]]; exists e; (split; [exact E|]); apply Sp; exact He. }
  assert (Hme : forall e, mem_entry e (pend q1) = mem_entry e (pend q2))
    by (intros e; unfold mem_entry; apply existsb_same_elems; exact Sp).
  assert (Hmr : forall e, mem_entry e (run q1) = mem_entry e (run q2))
    by (intros e; unfold mem_entry; apply existsb_same_elems; exact Sr).
  assert (Hex : forall f, existsb f (pend q1) = existsb f (pend q2))
    by (intros f; apply existsb_same_elems; exact Sp).
  assert (Hq : queue_eqb q q1 = queue_eqb q q2)
    by (unfold queue_eqb, scope_eqb; rewrite Hp, Hr; reflexivity).
  pose proof (isort_same_nil _ _ Hr) as Hnil.
  assert (Hs : forall m n v t, ok_schedule m n v t (mkCase q o q1 r) = ok_schedule m n v t (mkCase q o q2 r)).
  { intros m n v t. unfold ok_schedule. cbn [c_pre c_post]. rewrite Hq, Hme, Hex. reflexivity. }
  unfold c09_ok. f_equal.
  - unfold ok_no_loss. cbn [c_pre c_post c_op]. apply forallb_ext_fun. intros n. rewrite Hn. reflexivity.
  - cbn [c_op]. destruct o as [m n v t|now now2|k|k t|assign|k tr]; try reflexivity.
    + apply Hs.
    + unfold ok_claim. cbn [c_pre c_post c_res]. destruct r as [| | |k v]; try reflexivity.
      * rewrite Hq. reflexivity.
      * rewrite Hmr. f_equal. apply existsb_ext_fun. intros e. rewrite Hme. reflexivity.
    + unfold ok_startup. cbn [c_pre c_post]. rewrite Hnil. f_equal.
      apply forallb_ext_fun. intros e. apply Hnp.
    + destruct tr as [|n v t|t]; try reflexivity. apply Hs.
Qed.

(** ** The model's outcomes satisfy each clause of the oracle *)
Lemma finishes_b_true o n : finishes o n -> finishes_b o n = true.
Proof.
  destruct o as [m n0 v t|now now2|k|k t|assign|k tr]; cbn [finishes finishes_b]; try contradiction.
  - intros ->. apply N.eqb_refl.
  - destruct tr as [|n0 v t|t]; try contradiction. intros ->. apply N.eqb_refl.
Qed.

Lemma step_no_loss q o q' r : In (q', r) (step q o) -> ok_no_loss (mkCase q o q' r) = true.
Proof.
  intros H. unfold ok_no_loss. cbn [c_pre c_post c_op]. apply forallb_forall. intros n Hn.
  apply orb_true_iff. destruct (no_silent_loss q o q' r n H Hn) as [P|P].
  - left. apply memN_true. exact P.
  - right. apply finishes_b_true. exact P.
Qed.

Lemma schedule_ok m n v t q q' o r :
  In q' (schedule m n v t q) -> ok_schedule m n v t (mkCase q o q' r) = true.
Proof.
  intros H. unfold ok_schedule. cbn [c_pre c_post].
  destruct (f_if_absent (flags m)) eqn:Habs.
  - assert (m = IfMissing) by (destruct m; cbn in Habs; try discriminate; reflexivity). subst m.
    apply if_missing_spec in H. destruct H as [[Hin ->]|[Hnin ->]].
    + rewrite (proj2 (memN_true _ _) Hin). apply queue_eqb_refl.
    + destruct (memN n (names q)) eqn:E; [apply memN_true in E; contradiction|].
      apply mem_entry_true. cbn [pend]. unfold put. left. reflexivity.
  - apply in_schedule in H. destruct H as [po [ro [Hpo [Hro ->]]]].
    unfold sched_with. cbv zeta. rewrite Habs. cbn [andb pend]. unfold put. cbn [existsb].
    apply orb_true_iff. left. cbn [e_name e_val e_ts]. rewrite !N.eqb_refl. cbn [andb].
    destruct (f_min (flags m)); cbn [negb orb].
    + destruct po as [old|].
      * apply andb_true_iff. split; [apply N.leb_le; lia|].
        apply orb_true_iff. right. apply existsb_exists. exists old.
        apply pick_named_some in Hpo. destruct Hpo as [Ho1 Ho2].
        split; [exact Ho1|]. rewrite Ho2, !N.eqb_refl. reflexivity.
      * rewrite N.leb_refl, N.eqb_refl. reflexivity.
    + rewrite N.leb_refl. reflexivity.
Qed.

Lemma claim_ok now now2 q q' o r :
  In (q', r) (claim now now2 q) -> ok_claim now (mkCase q o q' r) = true.
Proof.
  intros H. unfold ok_claim. cbn [c_pre c_post c_res].
  destruct r as [| | |k v].
  - exfalso. unfold claim in H. destruct (min_ts (due now (pend q))).
    + apply in_map_iff in H. destruct H as [e [He _]]. unfold claim_one in He. discriminate.
    + destruct H as [H|[]]. discriminate.
  - exfalso. unfold claim in H. destruct (min_ts (due now (pend q))).
    + apply in_map_iff in H. destruct H as [e [He _]]. unfold claim_one in He. discriminate.
    + destruct H as [H|[]]. discriminate.
  - pose proof (claim_none_unchanged _ _ _ _ H) as ->.
    apply andb_true_iff. split; [|apply queue_eqb_refl].
    apply forallb_forall. intros e He. apply N.ltb_lt.
    apply (proj1 (claim_none_iff now now2 q)); [exists q; exact H|exact He].
  - apply claim_earliest in H.
    destruct H as [e [Hin [Hdue [Hv [Hn [Hmin [Hp [Hr _]]]]]]]].
    apply andb_true_iff. split.
    + apply existsb_exists. exists e. split; [exact Hin|].
      repeat (apply andb_true_iff; split).
      * apply N.leb_le. exact Hdue.
      * apply N.eqb_eq. exact Hn.
      * apply N.eqb_eq. exact Hv.
      * apply forallb_forall. intros e' He'. apply orb_true_iff.
        destruct (e_ts e' <=? now) eqn:D; [right|left; reflexivity].
        apply N.leb_le. apply Hmin; [exact He'|apply N.leb_le; exact D].
      * apply negb_true_iff. destruct (mem_entry e (pend q')) eqn:M; [|reflexivity].
        apply mem_entry_true in M. rewrite Hp in M. apply in_del in M. destruct M as [_ M].
        exfalso. apply M. reflexivity.
    + apply mem_entry_true. rewrite Hr. unfold put. left. reflexivity.
Qed.

(** Restart, without any assumption on the running scope: every task that was
    running is pending again, by name. Two running entries with the same
    storage key have the same name, so the second one (which the loop no
    longer finds) is covered by the re-queued first one. This removes the
    [NoDup] hypothesis of [QueueProofs.restart_running_becomes_pending]. *)
Lemma ekey_name a b : ekey a = ekey b -> e_name a = e_name b.
Proof. unfold ekey. intros E. injection E as E1 E2. exact E2. Qed.

Lemma key_eq_dec (a b : key) : {a = b} + {a <> b}.
Proof.
  destruct a as [a1 a2], b as [b1 b2]. destruct (N.eq_dec a1 b1) as [E1|E1], (N.eq_dec a2 b2) as [E2|E2];
  first [left; congruence | right; congruence].
Qed.

Lemma startup_fold_requeues now_of e : forall l q0,
  In e l ->
  (forall y, In y l -> (exists y', In y' (run q0) /\ ekey y' = ekey y)
                       \/ In (e_name y) (map e_name (pend q0))) ->
  In (e_name e) (map e_name (pend (fold_left (fun acc e => fst (resched (ekey e) (now_of (ekey e)) acc)) l q0))).
Proof.
  induction l as [|a l IH]; intros q0 Hin Hinv; [destruct Hin|]. cbn [fold_left].
  assert (Ha : In (e_name a) (map e_name (pend (fst (resched (ekey a) (now_of (ekey a)) q0))))).
  { unfold resched. destruct (get (run q0) (ekey a)) as [e0|] eqn:G; cbn [fst pend].
    - unfold put. cbn [map e_name]. left. apply get_some in G. destruct G as [_ G].
      apply ekey_name. exact G.
    - destruct (Hinv a (or_introl eq_refl)) as [[y' [Hy' Ek]]|Hp]; [|exact Hp].
      exfalso. exact (get_none _ _ G y' Hy' Ek). }
  destruct Hin as [->|Hin].
  - apply startup_fold_pending. exact Ha.
  - apply IH; [exact Hin|]. intros y Hy.
    destruct (Hinv y (or_intror Hy)) as [[y' [Hy' Ek]]|Hp].
    + destruct (key_eq_dec (ekey y) (ekey a)) as [K|K].
      * right. rewrite (ekey_name _ _ K). exact Ha.
      * left. exists y'. split; [|exact Ek]. apply resched_run_keeps; [exact Hy'|congruence].
    + right. apply resched_pending_grows. exact Hp.
Qed.

Theorem restart_running_becomes_pending_any now_of q e :
  In e (run q) -> In (e_name e) (map e_name (pend (startup now_of q))).
Proof.
  intros He. unfold startup, startup_with, startup_min_running.
  destruct (N.of_nat (length (run q)) <? 1) eqn:E.
  - apply N.ltb_lt in E. destruct (run q); cbn [length] in *; [destruct He|lia].
  - apply startup_fold_requeues; [exact He|]. intros y Hy. left. exists y. split; [exact Hy|reflexivity].
Qed.

Lemma startup_ok now_of q o r : ok_startup (mkCase q o (startup now_of q) r) = true.
Proof.
  unfold ok_startup. cbn [c_pre c_post]. rewrite restart_requeues_all. cbn [andb].
  apply forallb_forall. intros e He. apply memN_true.
  apply restart_running_becomes_pending_any. exact He.
Qed.

(** ** Main theorem: every outcome of the model satisfies the oracle (no hypothesis on [q]) *)
Theorem step_meets_oracle q o q' r :
  In (q', r) (step q o) -> c09_ok (mkCase q o q' r) = true.
Proof.
  intros H. unfold c09_ok. apply andb_true_iff. split; [apply step_no_loss; exact H|].
  cbn [c_op]. destruct o as [m n v t|now now2|k|k t|assign|k tr]; cbn [step] in H; try reflexivity.
  - apply in_map_iff in H. destruct H as [q0 [E Hs]]. injection E as -> <-.
    apply schedule_ok. exact Hs.
  - eapply claim_ok. exact H.
  - destruct H as [H|[]]. injection H as <- <-. apply startup_ok.
  - destruct tr as [|n v t|t]; try reflexivity. cbn [handle_result tq_mode] in H.
    apply in_map_iff in H. destruct H as [q0 [E Hs]]. injection E as -> <-.
    apply schedule_ok. exact Hs.
Qed.

(** ... and so does every observed transition that the model explains. *)
Theorem agrees_meets_oracle c : agrees c = true -> c09_ok c = true.
Proof.
  destruct c as [q o post res0]. unfold agrees. cbn [c_pre c_op c_post c_res].
  intros H. apply existsb_exists in H. destruct H as [[q1 r1] [Hin Heq]].
  apply andb_true_iff in Heq. destruct Heq as [Hq Hr]. apply res_eqb_true in Hr. subst r1.
  rewrite <- (c09_ok_post_invariant q o q1 post res0 Hq).
  apply step_meets_oracle. exact Hin.
Qed.

(** ** Well-formedness: a scope is a finite map on storage keys *)
Definition wf (q : queue) : Prop := NoDup (map ekey (pend q)) /\ NoDup (map ekey (run q)).

Lemma wf_empty : wf (mkQ [] []).
Proof. split; constructor. Qed.

Lemma nodup_keys_filter p (s : scope) : NoDup (map ekey s) -> NoDup (map ekey (filter p s)).
Proof.
  induction s as [|a s IH]; cbn [filter map]; intros H; [constructor|].
  inversion H as [|k0 l0 Hn Hd]; subst.
  destruct (p a); cbn [map]; [|apply IH; exact Hd].
  constructor; [|apply IH; exact Hd].
  intros Hi. apply Hn. apply in_map_iff in Hi. destruct Hi as [x [E Hx]].
  apply filter_In in Hx. apply in_map_iff. exists x. tauto.
Qed.

Lemma nodup_keys_del s k : NoDup (map ekey s) -> NoDup (map ekey (del s k)).
Proof. unfold del. apply nodup_keys_filter. Qed.

Lemma nodup_keys_del_opt s o : NoDup (map ekey s) -> NoDup (map ekey (del_opt s o)).
Proof. destruct o; cbn [del_opt]; [apply nodup_keys_del|auto]. Qed.

Lemma nodup_keys_put s e : NoDup (map ekey s) -> NoDup (map ekey (put s e)).
Proof.
  intros H. unfold put. cbn [map]. constructor; [|apply nodup_keys_del; exact H].
  intros Hi. apply in_map_iff in Hi. destruct Hi as [x [E Hx]]. apply in_del in Hx.
  destruct Hx as [_ Hx]. contradiction.
Qed.

Lemma wf_sched_with m n v t q po ro : wf q -> wf (sched_with m n v t q po ro).
Proof.
  intros [Hp Hr]. unfold sched_with. cbv zeta.
  destruct (f_if_absent (flags m) && (is_some po || is_some ro)); [split; assumption|].
  split; cbn [pend run].
  - apply nodup_keys_put. destruct (f_del_pending (flags m)); [apply nodup_keys_del_opt|]; exact Hp.
  - destruct (f_del_running (flags m)); [apply nodup_keys_del_opt|]; exact Hr.
Qed.

Lemma wf_schedule m n v t q q' : wf q -> In q' (schedule m n v t q) -> wf q'.
Proof.
  intros W H. apply in_schedule in H. destruct H as [po [ro [_ [_ ->]]]]. apply wf_sched_with. exact W.
Qed.

Lemma wf_claim now now2 q q' r : wf q -> In (q', r) (claim now now2 q) -> wf q'.
Proof.
  intros [Hp Hr] H. unfold claim in H. destruct (min_ts (due now (pend q))).
  - apply in_map_iff in H. destruct H as [e [He _]]. unfold claim_one in He. injection He as <- _.
    split; cbn [pend run]; [apply nodup_keys_del; exact Hp|apply nodup_keys_put; exact Hr].
  - destruct H as [H|[]]. injection H as <- _. split; assumption.
Qed.

Lemma wf_finish k q : wf q -> wf (fst (finish k q)).
Proof.
  intros [Hp Hr]. unfold finish. destruct (has (run q) k); cbn [fst]; [|split; assumption].
  split; cbn [pend run]; [exact Hp|apply nodup_keys_del; exact Hr].
Qed.

Lemma wf_resched k t q : wf q -> wf (fst (resched k t q)).
Proof.
  intros [Hp Hr]. unfold resched. destruct (get (run q) k); cbn [fst]; [|split; assumption].
  split; cbn [pend run]; [apply nodup_keys_put; exact Hp|apply nodup_keys_del; exact Hr].
Qed.

Lemma wf_startup now_of q : wf q -> wf (startup now_of q).
Proof.
  intros W. unfold startup, startup_with.
  destruct (N.of_nat (length (run q)) <? startup_min_running); [exact W|].
  generalize (run q) at 1. intros l. revert q W.
  induction l as [|a l IH]; intros q W; cbn [fold_left]; [exact W|].
  apply IH. apply wf_resched. exact W.
Qed.

(** [wf] is preserved by every operation, whatever outcome is chosen ... *)
Theorem wf_step q o q' r : wf q -> In (q', r) (step q o) -> wf q'.
Proof.
  intros W H. destruct o as [m n v t|now now2|k|k t|assign|k tr]; cbn [step] in H.
  - apply in_map_iff in H. destruct H as [q0 [E Hs]]. injection E as -> _. eapply wf_schedule; eauto.
  - eapply wf_claim; eauto.
  - destruct H as [H|[]]. rewrite (surjective_pairing (finish k q)) in H. injection H as <- _.
    apply wf_finish. exact W.
  - destruct H as [H|[]]. rewrite (surjective_pairing (resched k t q)) in H. injection H as <- _.
    apply wf_resched. exact W.
  - destruct H as [H|[]]. injection H as <- _. apply wf_startup. exact W.
  - destruct tr as [|n v t|t]; cbn [handle_result] in H.
    + destruct H as [H|[]]. rewrite (surjective_pairing (finish k q)) in H. injection H as <- _.
      apply wf_finish. exact W.
    + apply in_map_iff in H. destruct H as [q0 [E Hs]]. injection E as -> _. eapply wf_schedule; eauto.
    + destruct H as [H|[]]. rewrite (surjective_pairing (resched k t q)) in H. injection H as <- _.
      apply wf_resched. exact W.
Qed.

(** ... hence an invariant of every queue reachable from the empty one. *)
Theorem wf_steps q os q' : steps q os q' -> wf q -> wf q'.
Proof.
  induction 1 as [q|q o q1 r os q2 Hs Hrest IH]; intros W; [exact W|].
  apply IH. eapply wf_step; eauto.
Qed.

Corollary wf_reachable os q : steps (mkQ [] []) os q -> wf q.
Proof. intros H. eapply wf_steps; [exact H|apply wf_empty]. Qed.

(** ** The statements for well-formed queues (instances of the unconditional theorems) *)
Theorem model_step_meets_oracle : forall q o q' r,
  wf q -> In (q', r) (step q o) -> c09_ok (mkCase q o q' r) = true.
Proof. intros q o q' r _. apply step_meets_oracle. Qed.

Theorem agrees_implies_ok : forall c, wf (c_pre c) -> agrees c = true -> c09_ok c = true.
Proof. intros c _. apply agrees_meets_oracle. Qed.

(** ** Non-vacuity *)
(** A well-formed queue with two pending and one running task; claiming at
    time 4 hands out the earlier pending task; the oracle accepts the outcome,
    and also the same outcome observed with the running scope listed in the
    other order (this is where [agrees] differs from plain equality). *)
Example model_step_meets_oracle_nonvacuous :
  let q := mkQ [mkE 3 7 1; mkE 5 8 2] [mkE 1 9 4] in
  let q' := mkQ [mkE 5 8 2] [mkE 4 7 1; mkE 1 9 4] in
  let q'' := mkQ [mkE 5 8 2] [mkE 1 9 4; mkE 4 7 1] in
  let r := RClaimed (4, 7) 1 in
  wf q /\ In (q', r) (step q (OClaim 4 6)) /\ wf q'
  /\ c09_ok (mkCase q (OClaim 4 6) q' r) = true
  /\ q'' <> q' /\ agrees (mkCase q (OClaim 4 6) q'' r) = true
  /\ c09_ok (mkCase q (OClaim 4 6) q'' r) = true.
Proof.
  cbv zeta. repeat split.
  - repeat constructor; cbn; intuition discriminate.
  - repeat constructor; cbn; intuition discriminate.
  - left. reflexivity.
  - repeat constructor; cbn; intuition discriminate.
  - repeat constructor; cbn; intuition discriminate.
  - discriminate.
Qed.

(** The oracle rejects wrong observations on the same queue (it is not constantly true):
    handing out the later task, or losing the claimed task. *)
Example oracle_rejects_nonvacuous :
  let q := mkQ [mkE 3 7 1; mkE 5 8 2] [mkE 1 9 4] in
  c09_ok (mkCase q (OClaim 6 6) (mkQ [mkE 3 7 1] [mkE 6 8 2; mkE 1 9 4]) (RClaimed (6, 8) 2)) = false
  /\ c09_ok (mkCase q (OClaim 4 6) (mkQ [mkE 5 8 2] [mkE 1 9 4]) (RClaimed (4, 7) 1)) = false
  /\ agrees (mkCase q (OClaim 6 6) (mkQ [mkE 3 7 1] [mkE 6 8 2; mkE 1 9 4]) (RClaimed (6, 8) 2)) = false.
Proof. vm_compute. repeat split. Qed.

(** [wf] is not needed by the oracle: a restart on a running scope with a
    duplicated storage key (not a finite map, unreachable) still satisfies it. *)
Example step_meets_oracle_without_wf :
  let q := mkQ [] [mkE 5 7 1; mkE 5 7 2] in
  ~ wf q /\ forall q' r, In (q', r) (step q (OStartup [])) -> c09_ok (mkCase q (OStartup []) q' r) = true.
Proof.
  cbv zeta. split.
  - intros [_ H]. cbn in H. inversion H as [|k0 l0 Hn Hd]. apply Hn. left. reflexivity.
  - intros q' r H. apply step_meets_oracle. exact H.
Qed.

Print Assumptions step_meets_oracle.
Print Assumptions agrees_meets_oracle.
Print Assumptions c09_ok_post_invariant.
Print Assumptions wf_step.
Print Assumptions wf_steps.
Print Assumptions model_step_meets_oracle.
Print Assumptions agrees_implies_ok.
